(** C09, quantitative half, main theorems for the packet reader
    (src/queue_reader.rs [advance], src/pc_reader_raw.rs [next]):
    - every successful [qr_advance] consumes at least four bytes and ends inside the file;
    - the fuel of the refill loop is never the reason for its result;
    - the number of values held in the queues is bounded by the bytes consumed
      since [qr_new]: each queue by 8 * consumed, all together by
      8 * consumed as well (records of zero width are not stored: their queues stay empty);
    - [raw_next] stays inside the reachable states;
    - (before repair 803272f of the crate the total was 8 * (1 + number of zero-width records) * consumed,
      and that factor was attained; [zero_width_no_values] is the same input on the repaired model). *)
From E57 Require Import Base.Prelude Model.Crc Model.Device Model.PagedReader Spec.PageReadSpec Model.Prog
  Model.BsRead Model.Record Model.QueueReader.
From E57 Require Import Proofs.PageSpecLemmas Proofs.QueueReaderLemmas Proofs.PagedReaderCache
  Proofs.ReaderProgSem Proofs.ProgTransfer Proofs.TotWp Proofs.TotQueueBits Proofs.TotQueueAdv.
From Coq Require Import ZifyN ZifyNat ZifyBool.
Ltac Zify.zify_post_hook ::= Z.div_mod_to_equations.
Open Scope N_scope.

(** * Progress *)

Theorem progress_qr_advance : forall ps phys (s : pr) q s' q',
  pr_inv ps phys s -> rrun (qr_advance q) s = (s', Ok q') ->
  pr_off s + 4 <= pr_off s' /\ pr_off s' <= pr_log_size s.
Proof.
  intros ps phys s q s' q' I E.
  pose proof (wpp_rrun_ok ps phys _ _ s s' q' I (wpp_qr_advance ps (pr_log_size s) q (pr_off s)) E)
    as (H1 & H2 & _).
  split; assumption.
Qed.

(** * The refill fuel *)

Lemma refill_S f q :
  refill (S f) q = if qr_available q <? 1 then rbind (qr_advance q) (fun q' => refill f q') else rret q.
Proof. reflexivity. Qed.

Lemma refill_measure ls o o1 f :
  o + 4 <= o1 -> o1 <= ls ->
  (N.to_nat ((ls - o) / 4) < S f)%nat -> (N.to_nat ((ls - o1) / 4) < f)%nat.
Proof. intros. lia. Qed.

Lemma refill_measure0 ls o e : (N.to_nat ((ls - o) / 4) < S (S (N.to_nat (ls / 4))) + e)%nat.
Proof.
  assert (H : (ls - o) / 4 <= ls / 4) by (apply N.div_le_mono; lia).
  set (a := (ls - o) / 4) in *. set (b := ls / 4) in *. clearbody a b. lia.
Qed.

Lemma refill_step : forall f ps phys (s : pr) q,
  pr_inv ps phys s -> (N.to_nat ((pr_log_size s - pr_off s) / 4) < f)%nat ->
  rrun (refill (S f) q) s = rrun (refill f q) s.
Proof.
  induction f as [|f IH]; intros ps phys s q I Hm; [lia|].
  rewrite (refill_S (S f)), (refill_S f).
  destruct (qr_available q <? 1); [|reflexivity].
  rewrite !rrun_bind.
  destruct (rrun (qr_advance q) s) as [s1 r] eqn:E.
  destruct r as [q1|k|]; [|reflexivity|reflexivity].
  pose proof (progress_qr_advance ps phys s q s1 q1 I E) as [P1 P2].
  pose proof (rrun_preserves_inv ps phys _ (qr_advance q) s I) as I1.
  pose proof (rrun_log_size ps phys (qr_advance q) s I) as L1.
  rewrite E in I1, L1. cbn [fst] in I1, L1.
  apply (IH ps phys s1 q1 I1). rewrite L1.
  eapply refill_measure; eassumption.
Qed.

Theorem fuel_refill : forall ps phys (s : pr) q (extra : nat),
  pr_inv ps phys s ->
  rrun (refill (refill_fuel (pr_log_size s) + extra) q) s = rrun (refill (refill_fuel (pr_log_size s)) q) s.
Proof.
  intros ps phys s q extra I. induction extra as [|e IH].
  - rewrite Nat.add_0_r. reflexivity.
  - rewrite Nat.add_succ_r. rewrite (refill_step _ ps phys s q I); [exact IH|].
    unfold refill_fuel. apply refill_measure0.
Qed.

(** * The queue bound is an invariant *)

Theorem qbound_new : forall ps phys (s : pr) fo recs proto s' q,
  pr_inv ps phys s -> rrun (qr_new fo recs proto) s = (s', Ok q) ->
  qshape q /\ qbound (pr_off s') q (pr_off s') /\ q_proto q = proto.
Proof.
  intros ps phys s fo recs proto s' q I E.
  pose proof (wpp_rrun_ok ps phys _ _ s s' q I (wpp_qr_new ps (pr_log_size s) fo recs proto (pr_off s)) E) as Hq.
  cbv beta in Hq. subst q.
  unfold qshape, qbound. cbn [q_proto q_streams q_queues].
  rewrite !map_length, sized_pot_new.
  split; [split; reflexivity|]. split; [|reflexivity].
  split; [lia|]. split; [lia|]. apply zero_bounded_new.
Qed.

Theorem qbound_advance : forall ps phys (s : pr) q s' q' off0,
  pr_inv ps phys s -> qshape q -> qbound off0 q (pr_off s) ->
  rrun (qr_advance q) s = (s', Ok q') ->
  qshape q' /\ qbound off0 q' (pr_off s') /\ q_proto q' = q_proto q.
Proof.
  intros ps phys s q s' q' off0 I Hs Hb E.
  pose proof (wpp_rrun_ok ps phys _ _ s s' q' I (wpp_qr_advance ps (pr_log_size s) q (pr_off s)) E)
    as (_ & _ & H).
  destruct (H Hs) as (H1 & H2 & H3).
  split; [exact H1|]. split; [apply H3; exact Hb|exact H2].
Qed.

Theorem qbound_pop : forall off0 q off vs qs,
  qshape q -> qbound off0 q off -> pop_fronts (q_proto q) (q_queues q) = Ok (vs, qs) ->
  qshape (mkQr (q_proto q) (q_streams q) qs) /\ qbound off0 (mkQr (q_proto q) (q_streams q) qs) off.
Proof.
  intros off0 q off vs qs [L1 L2] (B1 & B2 & B3) E.
  destruct (pop_fronts_pot _ _ _ _ E) as (PL & PP1 & PP2).
  specialize (PL L2).
  unfold qshape, qbound. cbn [q_proto q_streams q_queues].
  split; [split; congruence|].
  split; [exact B1|]. split; [|apply PP2; exact B3].
  specialize (PP1 (q_streams q)). lia.
Qed.

Theorem qbound_values : forall off0 q off,
  qshape q -> qbound off0 q off ->
  Forall (fun x => len x <= 8 * (off - off0)) (q_queues q) /\
  total_values q <= 8 * (off - off0) /\
  zero_bounded 0 (q_proto q) (q_queues q).
Proof.
  intros off0 q off [L1 L2] (B1 & B2 & B3).
  destruct (values_from_pot _ _ _ _ L1 L2 B2 B3) as [HF HT].
  split; [exact HF|]. split; [unfold total_values; lia|exact B3].
Qed.

(** * Reachable states of the packet reader *)

Lemma qreach_inv : forall ps phys off0 q s, qreach ps phys off0 q s ->
  pr_inv ps phys s /\ qshape q /\ qbound off0 q (pr_off s).
Proof.
  intros ps phys off0 q s H. induction H as [s fo recs proto s' q I E Eo|q s q' s' H IH E|q s vs qs H IH E].
  - destruct (qbound_new ps phys s fo recs proto s' q I E) as (H1 & H2 & _).
    pose proof (rrun_preserves_inv ps phys _ (qr_new fo recs proto) s I) as I1.
    rewrite E in I1. cbn [fst] in I1. subst off0. auto.
  - destruct IH as (I & Hs & Hb).
    destruct (qbound_advance ps phys s q s' q' off0 I Hs Hb E) as (H1 & H2 & _).
    pose proof (rrun_preserves_inv ps phys _ (qr_advance q) s I) as I1.
    rewrite E in I1. cbn [fst] in I1. auto.
  - destruct IH as (I & Hs & Hb).
    destruct (qbound_pop off0 q (pr_off s) vs qs Hs Hb E) as (H1 & H2). auto.
Qed.

Theorem queue_bound : forall ps phys off0 q s, qreach ps phys off0 q s ->
  pr_inv ps phys s /\ off0 <= pr_off s /\
  Forall (fun x => len x <= 8 * (pr_off s - off0)) (q_queues q) /\
  total_values q <= 8 * (pr_off s - off0) /\
  zero_bounded 0 (q_proto q) (q_queues q).
Proof.
  intros ps phys off0 q s H. destruct (qreach_inv _ _ _ _ _ H) as (I & Hs & Hb).
  destruct (qbound_values off0 q (pr_off s) Hs Hb) as (HF & HT & HZ).
  split; [exact I|]. split; [exact (proj1 Hb)|]. split; [exact HF|]. split; assumption.
Qed.

Lemma refill_qreach : forall ps phys off0 f q s s' q',
  qreach ps phys off0 q s -> rrun (refill f q) s = (s', Ok q') -> qreach ps phys off0 q' s'.
Proof.
  intros ps phys off0. induction f as [|f IH]; intros q s s' q' H.
  - cbn. discriminate.
  - rewrite refill_S. destruct (qr_available q <? 1).
    + rewrite rrun_bind. destruct (rrun (qr_advance q) s) as [s1 r] eqn:E.
      destruct r as [q1|k|]; [|discriminate|discriminate].
      apply IH. eapply QR_adv; eassumption.
    + cbn. intros E. injection E as <- <-. exact H.
Qed.

Theorem raw_next_qreach : forall ps phys off0 ls it s s' it' o,
  qreach ps phys off0 (ri_q it) s -> rrun (raw_next ls it) s = (s', Ok (it', o)) ->
  qreach ps phys off0 (ri_q it') s'.
Proof.
  intros ps phys off0 ls it s s' it' o H. unfold raw_next.
  destruct (ri_records it <=? ri_read it).
  { cbn. intros E. injection E as <- <- _. exact H. }
  rewrite rrun_bind.
  destruct (rrun (refill (refill_fuel ls) (ri_q it)) s) as [s1 r] eqn:E.
  destruct r as [q1|k|]; [|discriminate|discriminate].
  pose proof (refill_qreach ps phys off0 _ _ _ _ _ H E) as H1.
  destruct (pop_fronts (q_proto q1) (q_queues q1)) as [[vs qs]|k|] eqn:Ep; cbn [rrun rret rfail];
    [|discriminate|discriminate].
  intros E2. injection E2 as <- <- _. cbn [ri_q].
  eapply QR_pop; eassumption.
Qed.

(** * Records of zero width hold no values: one data packet with [k] bytes of a
    1-bit record and three zero-width records yields 8 * k queued values (before the
    repair of the crate: 4 * 8 * k). *)

Definition amp_k : N := 100.
Definition amp_proto : list dtype := [TInteger 0 1; TInteger 5 5; TInteger 5 5; TInteger 5 5].
(* 6 bytes header + 4 * 2 bytes stream lengths + k bytes + padding to a multiple of 4 *)
Definition amp_packet_length : N := 116.
Definition amp_packet : list N :=
  [1; 0] ++ le_bytes 2 (amp_packet_length - 1) ++ le_bytes 2 4
  ++ le_bytes 2 amp_k ++ le_bytes 2 0 ++ le_bytes 2 0 ++ le_bytes 2 0
  ++ repeat 255 (N.to_nat amp_k) ++ [0; 0].
Definition amp_payload : list N :=
  zeros 48
  ++ [1; 0; 0; 0; 0; 0; 0; 0] ++ le_bytes 8 (32 + amp_packet_length) ++ le_bytes 8 80 ++ le_bytes 8 0
  ++ amp_packet
  ++ zeros (1020 - 80 - amp_packet_length).
Definition amp_phys : list N := amp_payload ++ crc_bytes amp_payload.

Definition amp_s0 : pr :=
  match snd (pr_new 1024 (dev_init amp_phys None)) with
  | Ok s => s
  | _ => mkPr (dev_init [] None) 0 0 0 0 0 None []
  end.
Definition amp_r1 := rrun (qr_new 48 10 amp_proto) amp_s0.
Definition amp_s1 : pr := fst amp_r1.
Definition amp_q0 : qr := match snd amp_r1 with Ok q => q | _ => mkQr [] [] [] end.
Definition amp_r2 := rrun (qr_advance amp_q0) amp_s1.
Definition amp_s2 : pr := fst amp_r2.
Definition amp_q1 : qr := match snd amp_r2 with Ok q => q | _ => mkQr [] [] [] end.

Lemma amp_new : exists d, pr_new 1024 (dev_init amp_phys None) = (d, Ok amp_s0).
Proof. eexists (fst (pr_new 1024 (dev_init amp_phys None))). vm_compute. reflexivity. Qed.

Lemma amp_e1 : rrun (qr_new 48 10 amp_proto) amp_s0 = (amp_s1, Ok amp_q0).
Proof. vm_compute. reflexivity. Qed.

Lemma amp_e2 : rrun (qr_advance amp_q0) amp_s1 = (amp_s2, Ok amp_q1).
Proof. vm_compute. reflexivity. Qed.

Lemma amp_inv0 : pr_inv 1024 amp_phys amp_s0.
Proof. destruct amp_new as [d E]. exact (proj1 (pr_new_inv 1024 amp_phys d amp_s0 E)). Qed.

Example zero_width_no_values :
  (exists d, pr_new 1024 (dev_init amp_phys None) = (d, Ok amp_s0)) /\
  rrun (qr_new 48 10 amp_proto) amp_s0 = (amp_s1, Ok amp_q0) /\
  rrun (qr_advance amp_q0) amp_s1 = (amp_s2, Ok amp_q1) /\
  pr_off amp_s1 = 80 /\ pr_off amp_s2 = 80 + (14 + amp_k + 2) /\
  zero_count (q_proto amp_q1) = 3 /\
  total_values amp_q0 = 0 /\
  total_values amp_q1 = 8 * amp_k /\
  map (@length rvalue) (q_queues amp_q1) = [800; 0; 0; 0]%nat.
Proof.
  split; [exact amp_new|]. split; [exact amp_e1|]. split; [exact amp_e2|].
  vm_compute. repeat split; reflexivity.
Qed.

Lemma amp_off1 : pr_off amp_s1 = 80.
Proof. vm_compute. reflexivity. Qed.

Lemma amp_reach0 : qreach 1024 amp_phys 80 amp_q0 amp_s1.
Proof. eapply QR_new; [exact amp_inv0|exact amp_e1|]. symmetry. exact amp_off1. Qed.

Lemma amp_reach : qreach 1024 amp_phys 80 amp_q1 amp_s2.
Proof. eapply QR_adv; [exact amp_reach0|exact amp_e2]. Qed.

(** the hypotheses of [queue_bound], [progress_qr_advance], [qbound_advance],
    [fuel_refill] and [raw_next_qreach] are satisfiable, on the device above *)
Example queue_bound_example :
  qreach 1024 amp_phys 80 amp_q1 amp_s2 /\
  total_values amp_q1 = 800 /\
  8 * (pr_off amp_s2 - 80) = 928.
Proof. split; [exact amp_reach|]. vm_compute. split; reflexivity. Qed.

Example progress_example :
  pr_inv 1024 amp_phys amp_s1 /\ rrun (qr_advance amp_q0) amp_s1 = (amp_s2, Ok amp_q1) /\
  qshape amp_q0 /\ qbound 80 amp_q0 (pr_off amp_s1) /\
  pr_off amp_s1 + 4 <= pr_off amp_s2 /\ pr_off amp_s2 <= pr_log_size amp_s1.
Proof.
  destruct (qreach_inv _ _ _ _ _ amp_reach0) as (I1 & Hs & Hb').
  split; [exact I1|]. split; [exact amp_e2|]. split; [exact Hs|].
  split; [exact Hb'|]. exact (progress_qr_advance 1024 amp_phys amp_s1 amp_q0 amp_s2 amp_q1 I1 amp_e2).
Qed.

Example raw_next_example :
  exists s' it' vs,
    rrun (raw_next (pr_log_size amp_s1) (mkRaw amp_q0 10 0)) amp_s1 = (s', Ok (it', Item vs)) /\
    vs = [VInteger 1; VInteger 5; VInteger 5; VInteger 5] /\
    total_values (ri_q it') = 799 /\
    qreach 1024 amp_phys 80 (ri_q it') s'.
Proof.
  pose (r := rrun (raw_next (pr_log_size amp_s1) (mkRaw amp_q0 10 0)) amp_s1).
  exists (fst r).
  exists (match snd r with Ok (it', _) => it' | _ => mkRaw amp_q0 0 0 end).
  exists (match snd r with Ok (_, Item vs) => vs | _ => [] end).
  assert (E : rrun (raw_next (pr_log_size amp_s1) (mkRaw amp_q0 10 0)) amp_s1 =
              (fst r, Ok (match snd r with Ok (it', _) => it' | _ => mkRaw amp_q0 0 0 end,
                          Item (match snd r with Ok (_, Item vs) => vs | _ => [] end)))).
  { vm_compute. reflexivity. }
  split; [exact E|]. split; [vm_compute; reflexivity|]. split; [vm_compute; reflexivity|].
  eapply raw_next_qreach; [|exact E]. cbn [ri_q]. exact amp_reach0.
Qed.

Print Assumptions progress_qr_advance.
Print Assumptions fuel_refill.
Print Assumptions qbound_new.
Print Assumptions qbound_advance.
Print Assumptions qbound_pop.
Print Assumptions qbound_values.
Print Assumptions queue_bound.
Print Assumptions raw_next_qreach.
Print Assumptions zero_width_no_values.
Print Assumptions queue_bound_example.
Print Assumptions raw_next_example.
