(** Point-cloud writer, part 1: list/number helpers, the laws of [wrun_spec]
    over program trees, the effect of the page-layer primitives on a logical
    stream whose cursor is at the end, and the packet capacity bound. *)
From E57 Require Import Base.Prelude Spec.PageSpec Model.Prog Model.BsWrite Model.Record
  Model.PcWriter Model.FileBin Spec.BitSpec Spec.FormatSpec.
From E57 Require Import Proofs.BitLemmas Proofs.BitWidthProofs Proofs.BitWriteProofs.
From Coq Require Import ZifyN ZifyNat ZifyBool.
Ltac Zify.zify_post_hook ::= Z.div_mod_to_equations.
Open Scope N_scope.

(** * [len] and friends *)

Lemma pc_len_nil {A} : len (@nil A) = 0.
Proof. reflexivity. Qed.

Lemma pc_len_app {A} (a b : list A) : len (a ++ b) = len a + len b.
Proof. unfold len. rewrite app_length. lia. Qed.

Lemma pc_len_cons {A} (x : A) l : len (x :: l) = 1 + len l.
Proof. unfold len. cbn [length]. lia. Qed.

Lemma pc_len_zeros n : len (zeros n) = n.
Proof. unfold len, zeros. rewrite repeat_length. lia. Qed.

Lemma pc_len_le_bytes n v : len (le_bytes n v) = N.of_nat n.
Proof. unfold len. rewrite le_bytes_length. reflexivity. Qed.

Lemma pc_zeros_0 : zeros 0 = [].
Proof. reflexivity. Qed.

Lemma pc_len_0 {A} (l : list A) : len l = 0 -> l = [].
Proof. destruct l; [reflexivity|]. rewrite pc_len_cons. lia. Qed.

Lemma pc_to_nat_len {A} (l : list A) : N.to_nat (len l) = length l.
Proof. unfold len. apply Nat2N.id. Qed.

(** * Sums over an index range *)

Fixpoint sumN (f : nat -> N) (n : nat) : N :=
  match n with O => 0 | S m => sumN f m + f m end.

Lemma sumN_ext f g n : (forall i, (i < n)%nat -> f i = g i) -> sumN f n = sumN g n.
Proof.
  induction n; intros H; cbn [sumN]; [reflexivity|].
  rewrite IHn by (intros; apply H; lia). rewrite H by lia. reflexivity.
Qed.

Lemma sumN_le f g n : (forall i, (i < n)%nat -> f i <= g i) -> sumN f n <= sumN g n.
Proof.
  induction n; intros H; cbn [sumN]; [lia|].
  specialize (IHn ltac:(intros; apply H; lia)). specialize (H n ltac:(lia)). lia.
Qed.

Lemma sumN_term_le f n i : (i < n)%nat -> f i <= sumN f n.
Proof.
  induction n; intros H; [lia|]. cbn [sumN].
  destruct (Nat.eq_dec i n) as [->|Hn]; [lia|]. specialize (IHn ltac:(lia)). lia.
Qed.

Lemma sumN_affine (b : nat -> N) c k n :
  sumN (fun i => c + k * b i) n = c * N.of_nat n + k * sumN b n.
Proof. induction n; cbn [sumN]; [lia|]. rewrite IHn. lia. Qed.

Lemma fold_add_acc : forall (l : list N) a, fold_left N.add l a = a + fold_left N.add l 0.
Proof.
  induction l as [|x l IH]; intros a; cbn [fold_left]; [lia|].
  rewrite (IH (a + x)), (IH (0 + x)). lia.
Qed.

Lemma fold_add_map_seq (f : nat -> N) n :
  fold_left N.add (map f (seq 0 n)) 0 = sumN f n.
Proof.
  induction n; [reflexivity|].
  rewrite seq_S, map_app, fold_left_app. cbn [map fold_left Nat.add]. rewrite IHn. reflexivity.
Qed.

Lemma len_concat_map_seq {A} (f : nat -> list A) n :
  len (concat (map f (seq 0 n))) = sumN (fun i => len (f i)) n.
Proof.
  induction n; [reflexivity|].
  rewrite seq_S, map_app, concat_app, pc_len_app. cbn [map concat Nat.add sumN].
  rewrite app_nil_r, IHn. reflexivity.
Qed.

Definition point_bits (proto : list dtype) : N := fold_left (fun a t => a + bit_size t) proto 0.

Lemma point_bits_sumN proto :
  point_bits proto = sumN (fun i => bit_size (nth i proto TSingle)) (length proto).
Proof.
  unfold point_bits. induction proto as [|x l IH] using rev_ind; [reflexivity|].
  rewrite fold_left_app, app_length. cbn [fold_left length]. rewrite Nat.add_1_r. cbn [sumN].
  rewrite IH. rewrite nth_middle. f_equal.
  apply sumN_ext. intros i Hi. rewrite app_nth1 by lia. reflexivity.
Qed.

Lemma map_nth_seq {A} (d : A) (l : list A) : map (fun i => nth i l d) (seq 0 (length l)) = l.
Proof.
  induction l as [|x l IH]; [reflexivity|].
  cbn [length seq map nth]. rewrite <- seq_shift, map_map. cbn [nth]. rewrite IH. reflexivity.
Qed.

Lemma nth_map_seq_lt {B} (f : nat -> B) (d : B) n i : (i < n)%nat -> nth i (map f (seq 0 n)) d = f i.
Proof.
  intros H. rewrite nth_map_seq. destruct (i <? n)%nat eqn:E; [reflexivity|lia].
Qed.

(** finite choice *)
Lemma fin_choice {A} (d : A) (R : nat -> A -> Prop) n :
  (forall i, (i < n)%nat -> exists a, R i a) -> exists f, forall i, (i < n)%nat -> R i (f i).
Proof.
  induction n; intros H.
  - exists (fun _ => d). intros; lia.
  - destruct IHn as [f Hf]; [intros; apply H; lia|].
    destruct (H n ltac:(lia)) as [a Ha].
    exists (fun i => if Nat.eqb i n then a else f i). intros i Hi.
    destruct (Nat.eqb_spec i n) as [->|Hn]; [exact Ha|apply Hf; lia].
Qed.

Lemma all_nat_intro n f : (forall i, (i < n)%nat -> f i = true) -> all_nat n f = true.
Proof.
  induction n; intros H; cbn [all_nat]; [reflexivity|].
  rewrite H by lia. rewrite IHn by (intros; apply H; lia). reflexivity.
Qed.

(** * Laws of [wrun_spec] *)

Lemma pcw_wrun_spec_bind {A B} (p : wprog A) (f : A -> wprog B) : forall l,
  wrun_spec (wbind p f) l =
  let '(l1, r) := wrun_spec p l in
  match r with Ok a => wrun_spec (f a) l1 | Err k => (l1, Err k) | Panic => (l1, Panic) end.
Proof.
  induction p as [a|k| |o k IH]; intros l; cbn [wbind wrun_spec]; try reflexivity.
  destruct (ls_step o l) as [l1 r]. apply IH.
Qed.

Lemma pcw_wrun_spec_relabel {A} e (p : wprog A) : forall l,
  wrun_spec (wrelabel e p) l = let '(l1, r) := wrun_spec p l in (l1, res_relabel e r).
Proof.
  induction p as [a|k| |o k IH]; intros l; cbn [wrelabel wrun_spec]; try reflexivity.
  destruct (ls_step o l) as [l1 r]. apply IH.
Qed.

Lemma pcw_wrun_spec_lift {A} (r : res A) l : wrun_spec (wlift r) l = (l, r).
Proof. destruct r; reflexivity. Qed.

Lemma run_bind_ok {A B} (p : wprog A) (f : A -> wprog B) l l1 a :
  wrun_spec p l = (l1, Ok a) -> wrun_spec (wbind p f) l = wrun_spec (f a) l1.
Proof. intros H. rewrite pcw_wrun_spec_bind, H. reflexivity. Qed.

Lemma run_relabel_ok {A} e (p : wprog A) l l1 a :
  wrun_spec p l = (l1, Ok a) -> wrun_spec (wrelabel e p) l = (l1, Ok a).
Proof. intros H. rewrite pcw_wrun_spec_relabel, H. reflexivity. Qed.

Lemma run_lift_ok {A} (a : A) l : wrun_spec (wlift (Ok a)) l = (l, Ok a).
Proof. reflexivity. Qed.

Lemma run_wret {A} (a : A) l : wrun_spec (wret a) l = (l, Ok a).
Proof. reflexivity. Qed.

(** * Primitives on a stream whose cursor is at the end *)

Definition lend (d : list N) : lstream := mkLs d (len d).

Lemma overwrite_end d bs : overwrite d (len d) bs = d ++ bs.
Proof.
  unfold overwrite. rewrite N.sub_diag, pc_zeros_0, app_nil_r.
  unfold take, drop. rewrite pc_to_nat_len, firstn_all.
  rewrite skipn_all2 by (unfold len; lia). rewrite app_nil_r. reflexivity.
Qed.

Lemma overwrite_mid d0 h0 h1 body : len h0 = len h1 ->
  overwrite (d0 ++ h0 ++ body) (len d0) h1 = d0 ++ h1 ++ body.
Proof.
  intros H. unfold overwrite.
  replace (len d0 - len (d0 ++ h0 ++ body)) with 0 by (rewrite !pc_len_app; lia).
  rewrite pc_zeros_0, app_nil_r. unfold take, drop.
  rewrite (firstn_app_exact d0) by (symmetry; apply pc_to_nat_len).
  rewrite (app_assoc d0 h0 body).
  rewrite (skipn_app_exact (d0 ++ h0)) by (rewrite app_length; unfold len in *; lia).
  reflexivity.
Qed.

Lemma run_w_write d bs : wrun_spec (w_write bs) (lend d) = (lend (d ++ bs), Ok tt).
Proof.
  unfold w_write, wop_. cbn [wrun_spec ls_step res_map wlift].
  destruct bs as [|b bs].
  - cbn [ls_write]. rewrite app_nil_r. reflexivity.
  - unfold ls_write, lend. cbn [ls_data ls_pos].
    rewrite overwrite_end, pc_len_app. reflexivity.
Qed.

Lemma run_wr d bs : wrun_spec (wr bs) (lend d) = (lend (d ++ bs), Ok tt).
Proof. apply run_w_write. Qed.

Lemma run_wr_all : forall chunks d, wrun_spec (wr_all chunks) (lend d) = (lend (d ++ concat chunks), Ok tt).
Proof.
  induction chunks as [|c r IH]; intros d; cbn [wr_all concat].
  - rewrite app_nil_r. reflexivity.
  - rewrite (run_bind_ok _ _ _ _ _ (run_wr d c)), IH, app_assoc. reflexivity.
Qed.

Lemma run_w_position d p : wrun_spec w_position (mkLs d p) = (mkLs d p, Ok (phys_of_log p)).
Proof. reflexivity. Qed.

Lemma run_w_align d :
  wrun_spec w_align (lend d) = (lend (d ++ zeros ((4 - len d mod 4) mod 4)), Ok tt).
Proof.
  unfold w_align, wop_. cbn [wrun_spec ls_step res_map wlift].
  change (ls_pos (lend d)) with (len d).
  pose proof (run_w_write d (zeros ((4 - len d mod 4) mod 4))) as H.
  unfold w_write, wop_ in H. cbn [wrun_spec ls_step res_map wlift] in H.
  inversion H as [H1]. rewrite H1. reflexivity.
Qed.

Lemma run_w_align_aligned d : len d mod 4 = 0 -> wrun_spec w_align (lend d) = (lend d, Ok tt).
Proof.
  intros H. rewrite run_w_align. replace ((4 - len d mod 4) mod 4) with 0 by lia.
  rewrite pc_zeros_0, app_nil_r. reflexivity.
Qed.

Lemma log_of_phys_of_log x : log_of_phys (phys_of_log x) = x.
Proof. unfold log_of_phys, phys_of_log, PAYLOAD_SZ, PAGE_SZ. lia. Qed.

Lemma run_w_seek d p x : x <= len d ->
  wrun_spec (w_seek (phys_of_log x)) (mkLs d p) = (mkLs d x, Ok tt).
Proof.
  intros H. unfold w_seek, wop_. cbn [wrun_spec ls_step].
  assert (E1 : (ls_phys_size (mkLs d p) <? phys_of_log x) = false).
  { unfold ls_phys_size, pages_for, phys_of_log, PAYLOAD_SZ, PAGE_SZ. cbn [ls_data]. lia. }
  assert (E2 : (PAYLOAD_SZ <=? phys_of_log x mod PAGE_SZ) = false).
  { unfold phys_of_log, PAYLOAD_SZ, PAGE_SZ. lia. }
  rewrite E1, E2, log_of_phys_of_log. reflexivity.
Qed.

(** * Packet capacity *)

Lemma max_packet_points_facts : forall proto mpp,
  get_max_packet_points proto = Ok mpp ->
  1 <= mpp /\ point_bits proto <> 0 /\
  6 + 2 * len proto + len proto + 500 + (mpp * point_bits proto) / 8 <= 65535.
Proof.
  intros proto mpp H. unfold get_max_packet_points in H. fold (point_bits proto) in H.
  unfold DATA_HEADER_SIZE, SAFETY_MARGIN, U16_MAX in H.
  destruct (point_bits proto =? 0) eqn:E0; [discriminate|].
  destruct (65535 <? 6 + len proto * 2 + len proto + 500) eqn:E1.
  - change (0 =? 0) with true in H. discriminate.
  - destruct ((65535 - (6 + len proto * 2 + len proto + 500)) * 8 / point_bits proto =? 0) eqn:E2;
      [discriminate|].
    inversion H as [Hm]. clear H.
    set (B := point_bits proto) in *. set (n := len proto) in *.
    assert (HB : B <> 0) by lia.
    assert (Hq : mpp * B <= (65535 - (6 + n * 2 + n + 500)) * 8).
    { rewrite <- Hm. rewrite N.mul_comm. apply N.mul_div_le. exact HB. }
    split; [lia|]. split; [exact HB|]. lia.
Qed.

Lemma proto_nonempty proto mpp : get_max_packet_points proto = Ok mpp -> proto <> [].
Proof.
  intros H ->. apply max_packet_points_facts in H as (_ & H & _). apply H. reflexivity.
Qed.

(** The bound that the proofs use: a non-last flush of at most [mpp] points on
    top of at most 7 left-over bits per stream, and the last flush of at most
    one byte per stream, both stay within the u16 packet length. *)
Theorem packet_capacity : forall proto mpp,
  get_max_packet_points proto = Ok mpp ->
  1 <= mpp /\
  6 + 2 * len proto + len proto + 500
    + (mpp * fold_left (fun a t => a + bit_size t) proto 0) / 8 <= 65535 /\
  6 + 2 * len proto
    + (mpp * fold_left (fun a t => a + bit_size t) proto 0 + 7 * len proto) / 8 + 3 <= 65535 /\
  6 + 2 * len proto + len proto + 3 <= 65535.
Proof.
  intros proto mpp H. apply max_packet_points_facts in H as (H1 & H2 & H3).
  fold (point_bits proto). set (B := point_bits proto) in *. set (n := len proto) in *.
  split; [exact H1|]. split; [exact H3|]. split; lia.
Qed.

(** The bound in the form first proposed (one more byte per stream on top of
    the 7 left-over bits) does NOT hold for prototypes with many narrow
    records: 1000 one-bit integers give 496 points per packet and
    6 + 2000 + (496000 + 7007) / 8 + 1000 + 3 = 65884. *)
Lemma packet_capacity_as_first_stated_is_false :
  exists proto mpp,
    get_max_packet_points proto = Ok mpp /\
    ~ (6 + 2 * len proto + (mpp * fold_left (fun a t => a + bit_size t) proto 0 + 7 * len proto + 7) / 8
         + len proto + 3 <= 65535).
Proof.
  exists (repeat (TInteger 0 1) 1000), 496. split; [vm_compute; reflexivity|].
  vm_compute. intros H. apply H. reflexivity.
Qed.
