(** Common definitions: bytes as [N], little/big endian numbers, the result
    type with Rust's error kinds and panics, and the state-and-error monad in
    which every implementation-shaped model is written.  No proofs here. *)
From Coq Require Export List NArith ZArith Bool Lia.
Export ListNotations.
Open Scope N_scope.

Global Arguments N.add : simpl never.
Global Arguments N.sub : simpl never.
Global Arguments N.mul : simpl never.
Global Arguments N.div : simpl never.
Global Arguments N.modulo : simpl never.
Global Arguments N.shiftl : simpl never.
Global Arguments N.shiftr : simpl never.
Global Arguments N.lxor : simpl never.
Global Arguments N.land : simpl never.
Global Arguments N.lor : simpl never.
Global Arguments N.pow : simpl never.
Global Arguments N.eqb : simpl never.
Global Arguments N.ltb : simpl never.
Global Arguments N.leb : simpl never.
Global Arguments N.min : simpl never.
Global Arguments N.max : simpl never.
Global Arguments N.of_nat : simpl never.
Global Arguments N.to_nat : simpl never.
Global Arguments Z.add : simpl never.
Global Arguments Z.sub : simpl never.
Global Arguments Z.mul : simpl never.
Global Arguments Z.div : simpl never.
Global Arguments Z.modulo : simpl never.
Global Arguments Z.pow : simpl never.
Global Arguments Z.of_N : simpl never.
Global Arguments Z.to_N : simpl never.

(** * Bytes *)

Definition byte_ok (b : N) : Prop := b < 256.
Definition bytes_ok (l : list N) : Prop := Forall byte_ok l.
Definition byte_okb (b : N) : bool := b <? 256.
Definition bytes_okb (l : list N) : bool := forallb byte_okb l.

Definition len {A} (l : list A) : N := N.of_nat (length l).
Definition zeros (n : N) : list N := repeat 0 (N.to_nat n).
Definition take {A} (n : N) (l : list A) : list A := firstn (N.to_nat n) l.
Definition drop {A} (n : N) (l : list A) : list A := skipn (N.to_nat n) l.
Definition slice {A} (start n : N) (l : list A) : list A := take n (drop start l).

(** Overwrite [bs] into [l] at position [pos]; a gap between the end of [l]
    and [pos] is zero-filled and [l] is extended as needed (the semantics of
    writing to an in-memory file). *)
Definition overwrite (l : list N) (pos : N) (bs : list N) : list N :=
  let l' := l ++ zeros (pos - len l) in
  take pos l' ++ bs ++ drop (pos + len bs) l'.

(** Little-endian number of a byte list and back. *)
Fixpoint le_num (l : list N) : N :=
  match l with
  | [] => 0
  | b :: r => b + 256 * le_num r
  end.

Fixpoint le_bytes (n : nat) (v : N) : list N :=
  match n with
  | O => []
  | S k => (v mod 256) :: le_bytes k (v / 256)
  end.

Definition be_bytes (n : nat) (v : N) : list N := rev (le_bytes n v).
Definition be_num (l : list N) : N := le_num (rev l).

(** * Results: Rust's [Result<_, e57::Error>] plus panics *)

Inductive err_kind := EInvalid | ERead | EWrite | ENotImpl | EInternal | EIo.

Inductive res (A : Type) : Type :=
| Ok (a : A)
| Err (k : err_kind)
| Panic.
Arguments Ok {A} a.
Arguments Err {A} k.
Arguments Panic {A}.

Definition is_ok {A} (r : res A) : bool := match r with Ok _ => true | _ => false end.
Definition is_err {A} (r : res A) : bool := match r with Err _ => true | _ => false end.
Definition is_panic {A} (r : res A) : bool := match r with Panic => true | _ => false end.

Definition res_map {A B} (f : A -> B) (r : res A) : res B :=
  match r with Ok a => Ok (f a) | Err k => Err k | Panic => Panic end.

Definition res_bind {A B} (r : res A) (k : A -> res B) : res B :=
  match r with Ok a => k a | Err e => Err e | Panic => Panic end.

(** [read_err] / [write_err] / [invalid_err] / [internal_err] of error.rs:
    any error is re-labelled with the given kind. *)
Definition res_relabel {A} (k : err_kind) (r : res A) : res A :=
  match r with Err _ => Err k | x => x end.

(** * State-and-error monad *)

Definition M (S A : Type) : Type := S -> S * res A.

Definition ret {S A} (a : A) : M S A := fun s => (s, Ok a).
Definition fail {S A} (k : err_kind) : M S A := fun s => (s, Err k).
Definition panic {S A} : M S A := fun s => (s, Panic).
Definition bind {S A B} (m : M S A) (k : A -> M S B) : M S B :=
  fun s => let '(s1, r) := m s in
           match r with
           | Ok a => k a s1
           | Err e => (s1, Err e)
           | Panic => (s1, Panic)
           end.
Definition get {S} : M S S := fun s => (s, Ok s).
Definition put {S} (s : S) : M S unit := fun _ => (s, Ok tt).
Definition relabel {S A} (k : err_kind) (m : M S A) : M S A :=
  fun s => let '(s1, r) := m s in (s1, res_relabel k r).
(** Run and swallow an error (the crate does this in [Drop]). *)
Definition ignore_err {S A} (m : M S A) : M S unit :=
  fun s => let '(s1, r) := m s in
           match r with Panic => (s1, Panic) | _ => (s1, Ok tt) end.
Definition lift_res {S A} (r : res A) : M S A := fun s => (s, r).

Declare Scope monad_scope.
Delimit Scope monad_scope with monad.
Notation "x <- m ;; k" := (bind m (fun x => k))
  (at level 61, m at next level, right associativity) : monad_scope.
Notation "' p <- m ;; k" := (bind m (fun x => match x with p => k end))
  (at level 61, p pattern, m at next level, right associativity) : monad_scope.
Notation "m ;;; k" := (bind m (fun _ => k))
  (at level 61, right associativity) : monad_scope.
