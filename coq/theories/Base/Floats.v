(** IEEE-754 binary64 / binary32 as Rust's [f64] / [f32], on top of Flocq 4.1.
    Values are Flocq's [binary64] / [binary32]; every operation rounds to
    nearest, ties to even, as the hardware does for Rust.  Everything here
    computes under [vm_compute] and extracts with ExtrOcamlBasic only.

    NaN: Rust does not specify sign and payload of a NaN produced by an
    arithmetic operation or a cast.  The operations below produce *some* NaN;
    compare results only after [canon64] / [canon32] (or [bits_of_f64c] /
    [bits_of_f32c]), which map every NaN bit pattern to the quiet NaN
    0x7ff8000000000000 / 0x7fc00000.

    Only [Binary] and [Bits] are imported ([BinarySingleNaN] declares the same
    constructor names); the rounding mode is [BinarySingleNaN.mode_NE].

    Axioms: the Flocq operations are defined through its real-number library,
    [Print Assumptions] of anything below lists (at most) the standard library's
    [ClassicalDedekindReals.sig_not_dec], [ClassicalDedekindReals.sig_forall_dec],
    [FunctionalExtensionality.functional_extensionality_dep] and
    [Classical_Prop.classic].  No proofs in this file. *)
From Coq Require Import ZArith NArith Bool.
From Flocq Require Import Binary Bits.
From E57 Require Import Base.Prelude.

Notation mode_NE := BinarySingleNaN.mode_NE (only parsing).

(** * Formats *)

Definition prec64 : Z := 53.
Definition emax64 : Z := 1024.
Definition prec32 : Z := 24.
Definition emax32 : Z := 128.

Definition Hprec64 : FLX.Prec_gt_0 53 := eq_refl.
Definition Hemax64 : BinarySingleNaN.Prec_lt_emax 53 1024 := eq_refl.
Definition Hprec32 : FLX.Prec_gt_0 24 := eq_refl.
Definition Hemax32 : BinarySingleNaN.Prec_lt_emax 24 128 := eq_refl.

(** * Bit patterns: [f64::from_bits] / [f64::to_bits] (and f32) *)

Definition f64_of_bits (n : N) : binary64 := b64_of_bits (Z.of_N (n mod 2 ^ 64)%N).
Definition bits_of_f64 (x : binary64) : N := Z.to_N (bits_of_b64 x).
Definition f32_of_bits (n : N) : binary32 := b32_of_bits (Z.of_N (n mod 2 ^ 32)%N).
Definition bits_of_f32 (x : binary32) : N := Z.to_N (bits_of_b32 x).

Definition nan64_bits : N := 0x7ff8000000000000.
Definition nan32_bits : N := 0x7fc00000.

(** Canonical NaN: every NaN pattern (exponent all ones, mantissa non-zero) is
    mapped to the positive quiet NaN; other patterns are unchanged. *)
Definition canon64 (n : N) : N :=
  if (N.land n 0x7ff0000000000000 =? 0x7ff0000000000000)%N
     && negb (N.land n 0x000fffffffffffff =? 0)%N
  then nan64_bits else n.
Definition canon32 (n : N) : N :=
  if (N.land n 0x7f800000 =? 0x7f800000)%N && negb (N.land n 0x007fffff =? 0)%N
  then nan32_bits else n.

(** [to_bits] with the NaN canonicalised: what the tie compares. *)
Definition bits_of_f64c (x : binary64) : N := canon64 (bits_of_f64 x).
Definition bits_of_f32c (x : binary32) : N := canon32 (bits_of_f32 x).

(** * Constants (by bit pattern) *)

Definition f64_zero_bits : N := 0.
Definition f64_one_bits  : N := 0x3ff0000000000000.
Definition f64_half_bits : N := 0x3fe0000000000000.
Definition f64_MAX_bits  : N := 0x7fefffffffffffff.
Definition f64_MIN_bits  : N := 0xffefffffffffffff.
Definition f32_zero_bits : N := 0.
Definition f32_one_bits  : N := 0x3f800000.
Definition f32_MAX_bits  : N := 0x7f7fffff.
Definition f32_MIN_bits  : N := 0xff7fffff.

(** [0.0], [1.0], [0.5], [f64::MAX], [f64::MIN] (= -MAX), [f64::NAN], [f64::INFINITY] *)
Definition f64_zero : binary64 := f64_of_bits f64_zero_bits.
Definition f64_one  : binary64 := f64_of_bits f64_one_bits.
Definition f64_half : binary64 := f64_of_bits f64_half_bits.
Definition f64_MAX  : binary64 := f64_of_bits f64_MAX_bits.
Definition f64_MIN  : binary64 := f64_of_bits f64_MIN_bits.
Definition f64_nan  : binary64 := f64_of_bits nan64_bits.
Definition f64_inf  : binary64 := f64_of_bits 0x7ff0000000000000.
(** [0.0f32], [1.0f32], [f32::MAX], [f32::MIN] (= -MAX), [f32::NAN] *)
Definition f32_zero : binary32 := f32_of_bits f32_zero_bits.
Definition f32_one  : binary32 := f32_of_bits f32_one_bits.
Definition f32_MAX  : binary32 := f32_of_bits f32_MAX_bits.
Definition f32_MIN  : binary32 := f32_of_bits f32_MIN_bits.
Definition f32_nan  : binary32 := f32_of_bits nan32_bits.

(** * Arithmetic on f64: Rust's [+ - * /], [f64::sqrt], unary [-], [f64::abs] *)

Definition f64_add (a b : binary64) : binary64 := b64_plus mode_NE a b.
Definition f64_sub (a b : binary64) : binary64 := b64_minus mode_NE a b.
Definition f64_mul (a b : binary64) : binary64 := b64_mult mode_NE a b.
Definition f64_div (a b : binary64) : binary64 := b64_div mode_NE a b.
Definition f64_sqrt (a : binary64) : binary64 := b64_sqrt mode_NE a.
Definition f64_neg (a : binary64) : binary64 := b64_opp a.
Definition f64_abs (a : binary64) : binary64 := b64_abs a.

(** The same on f32. *)
Definition f32_add (a b : binary32) : binary32 := b32_plus mode_NE a b.
Definition f32_sub (a b : binary32) : binary32 := b32_minus mode_NE a b.
Definition f32_mul (a b : binary32) : binary32 := b32_mult mode_NE a b.
Definition f32_div (a b : binary32) : binary32 := b32_div mode_NE a b.
Definition f32_sqrt (a : binary32) : binary32 := b32_sqrt mode_NE a.
Definition f32_neg (a : binary32) : binary32 := b32_opp a.
Definition f32_abs (a : binary32) : binary32 := b32_abs a.

(** * Classification: [is_nan], [is_finite], [is_infinite] *)

Definition f64_is_nan (a : binary64) : bool := is_nan 53 1024 a.
Definition f64_is_finite (a : binary64) : bool := is_finite 53 1024 a.
Definition f64_is_infinite (a : binary64) : bool :=
  match a with B754_infinity _ _ _ => true | _ => false end.
Definition f32_is_nan (a : binary32) : bool := is_nan 24 128 a.
Definition f32_is_finite (a : binary32) : bool := is_finite 24 128 a.
Definition f32_is_infinite (a : binary32) : bool :=
  match a with B754_infinity _ _ _ => true | _ => false end.

(** * Comparisons: Rust's [< <= == >] on floats (false when either side is NaN; -0 = +0) *)

Definition f64_lt (a b : binary64) : bool :=
  match b64_compare a b with Some Lt => true | _ => false end.
Definition f64_le (a b : binary64) : bool :=
  match b64_compare a b with Some Lt | Some Eq => true | _ => false end.
Definition f64_eq (a b : binary64) : bool :=
  match b64_compare a b with Some Eq => true | _ => false end.
Definition f64_gt (a b : binary64) : bool :=
  match b64_compare a b with Some Gt => true | _ => false end.
Definition f64_ge (a b : binary64) : bool :=
  match b64_compare a b with Some Gt | Some Eq => true | _ => false end.

Definition f32_lt (a b : binary32) : bool :=
  match b32_compare a b with Some Lt => true | _ => false end.
Definition f32_le (a b : binary32) : bool :=
  match b32_compare a b with Some Lt | Some Eq => true | _ => false end.
Definition f32_eq (a b : binary32) : bool :=
  match b32_compare a b with Some Eq => true | _ => false end.
Definition f32_gt (a b : binary32) : bool :=
  match b32_compare a b with Some Gt => true | _ => false end.
Definition f32_ge (a b : binary32) : bool :=
  match b32_compare a b with Some Gt | Some Eq => true | _ => false end.

(** * [f64::min] / [f64::max]: if one argument is NaN the other is returned.
    For equal arguments (in particular -0 against +0, which Rust leaves open)
    the first argument is returned, which is what the code generated for
    x86-64 does and what the tie checks. *)
Definition f64_min (a b : binary64) : binary64 :=
  if f64_is_nan a then b else if f64_lt b a then b else a.
Definition f64_max (a b : binary64) : binary64 :=
  if f64_is_nan a then b else if f64_gt b a then b else a.

(** * [f64::clamp(self, min, max)]: [assert!(min <= max)] panics when
    [min > max] or either bound is NaN; a NaN value stays NaN; -0/+0 are not
    distinguished by the comparisons, the value is returned unchanged unless it
    is strictly outside. *)
Definition f64_clamp (v lo hi : binary64) : res binary64 :=
  if f64_le lo hi then
    let v1 := if f64_lt v lo then lo else v in
    let v2 := if f64_gt v1 hi then hi else v1 in
    Ok v2
  else Panic.

(** * Conversions *)

(** Format conversion in the style of CompCert's [Bconv] (Flocq 4.1 has none):
    zeros and infinities keep their sign, a finite number is rounded to nearest
    even into the target format (overflow gives the infinity), a NaN gives the
    target's default NaN. *)
Definition f32_of_f64 (x : binary64) : binary32 :=
  match x with
  | B754_nan _ _ _ _ _ => f32_nan
  | B754_infinity _ _ s => B754_infinity 24 128 s
  | B754_zero _ _ s => B754_zero 24 128 s
  | B754_finite _ _ s m e _ =>
      binary_normalize 24 128 Hprec32 Hemax32 mode_NE (SpecFloat.cond_Zopp s (Zpos m)) e s
  end.
(** Rust: [x as f32] for [x : f64] is [f32_of_f64 x]. *)

(** Rust: [x as f64] for [x : f32] (exact). *)
Definition f64_of_f32 (x : binary32) : binary64 :=
  match x with
  | B754_nan _ _ _ _ _ => f64_nan
  | B754_infinity _ _ s => B754_infinity 53 1024 s
  | B754_zero _ _ s => B754_zero 53 1024 s
  | B754_finite _ _ s m e _ =>
      binary_normalize 53 1024 Hprec64 Hemax64 mode_NE (SpecFloat.cond_Zopp s (Zpos m)) e s
  end.

(** Rust: [z as f64] for an integer [z] (i64, u64, i128 ...): correctly rounded
    to nearest even; 0 gives +0. *)
Definition f64_of_Z (z : Z) : binary64 :=
  binary_normalize 53 1024 Hprec64 Hemax64 mode_NE z 0 false.
Definition f32_of_Z (z : Z) : binary32 :=
  binary_normalize 24 128 Hprec32 Hemax32 mode_NE z 0 false.

(** Truncation toward zero of a finite number (0 for NaN and infinities). *)
Definition f64_trunc_Z (x : binary64) : Z := Btrunc 53 1024 x.
Definition f32_trunc_Z (x : binary32) : Z := Btrunc 24 128 x.

(** Rust's saturating float-to-integer [as] casts into the range [lo..hi]:
    NaN gives 0, values beyond the range (including the infinities) saturate. *)
Definition sat_cast (lo hi : Z) (nan inf_neg inf_pos : bool) (t : Z) : Z :=
  if nan then 0%Z else if inf_neg then lo else if inf_pos then hi
  else if (t <? lo)%Z then lo else if (hi <? t)%Z then hi else t.
Definition f64_to_int (lo hi : Z) (x : binary64) : Z :=
  sat_cast lo hi (f64_is_nan x)
    (match x with B754_infinity _ _ true => true | _ => false end)
    (match x with B754_infinity _ _ false => true | _ => false end) (f64_trunc_Z x).
Definition f32_to_int (lo hi : Z) (x : binary32) : Z :=
  sat_cast lo hi (f32_is_nan x)
    (match x with B754_infinity _ _ true => true | _ => false end)
    (match x with B754_infinity _ _ false => true | _ => false end) (f32_trunc_Z x).
(** [x as i64], [x as u8] *)
Definition f64_to_i64 (x : binary64) : Z := f64_to_int (- 2 ^ 63) (2 ^ 63 - 1) x.
Definition f64_to_u8 (x : binary64) : Z := f64_to_int 0 255 x.
Definition f32_to_u8 (x : binary32) : Z := f32_to_int 0 255 x.
