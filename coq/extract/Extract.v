(** Extraction of the executable models to OCaml.  Only ExtrOcamlBasic is
    used: bool, option, unit, list, prod, sumbool, sumor map to OCaml's own
    types; positive, N, Z and nat stay the extracted inductive types. *)
From Coq Require Import Extraction ExtrOcamlBasic.
From E57 Require Import Base.Prelude Model.Crc Model.Device Model.PagedWriter Model.PagedReader Spec.PageSpec.

Extraction Language OCaml.
Separate Extraction
  BinInt.Z.add BinInt.Z.of_N BinInt.Z.to_N
  Prelude.len Prelude.le_num Prelude.le_bytes Prelude.be_bytes
  Crc.crc32c Crc.crc_bytes
  Device.dev_init Device.apply_writes
  PagedWriter.pw_new PagedWriter.pw_run PagedWriter.pw_drop
  PagedReader.pr_new PagedReader.pr_run
  PageSpec.paginate PageSpec.strip_crc PageSpec.all_pages_valid PageSpec.ls_init PageSpec.ls_run PageSpec.lr_run.
