(** Extraction of the executable models to OCaml.  Only ExtrOcamlBasic is
    used: bool, option, unit, list, prod, sumbool, sumor map to OCaml's own
    types; positive, N, Z and nat stay the extracted inductive types. *)
From Coq Require Import Extraction ExtrOcamlBasic.
From E57 Require Import Base.Prelude Model.Crc Model.Device Model.PagedWriter Model.PagedReader Spec.PageSpec
  Model.BsWrite Model.BsRead Model.Record Spec.BitSpec
  Model.Prog Model.QueueReader Model.PcWriter Model.FileBin Model.ReaderOpen Spec.FormatSpec.

Extraction Language OCaml.
Separate Extraction
  BinInt.Z.add BinInt.Z.of_N BinInt.Z.to_N
  Prelude.len Prelude.le_num Prelude.le_bytes Prelude.be_bytes
  Crc.crc32c Crc.crc_bytes
  Device.dev_init Device.apply_writes
  PagedWriter.pw_new PagedWriter.pw_run PagedWriter.pw_drop
  PagedReader.pr_new PagedReader.pr_run
  BsWrite.bsw_new BsWrite.bsw_add_bits BsWrite.bsw_add_bytes BsWrite.bsw_get_full_bytes BsWrite.bsw_get_all_bytes BsWrite.bsw_full_bytes
  BsRead.bsr_new BsRead.bsr_append BsRead.bsr_extract BsRead.bsr_available
  Record.bit_size Record.dtype_write Record.unpack_type Record.write_values Record.feed_chunks Record.value_matches
  BitSpec.spec_bit_size BitSpec.spec_stream_bytes BitSpec.spec_decode_stream BitSpec.in_range BitSpec.type_ok
  Prog.wrun Prog.rrun Prog.wrun_spec Prog.rrun_spec
  QueueReader.raw_new QueueReader.raw_next QueueReader.qr_available
  PcWriter.get_max_packet_points PcWriter.pcw_new PcWriter.pcw_add_point PcWriter.pcw_finalize
  FileBin.writer_init FileBin.writer_finalize FileBin.items_write FileBin.item_write FileBin.blob_read ReaderOpen.reader_open FileBin.validate_crc ReaderOpen.raw_xml
  FormatSpec.encode_section FormatSpec.decode_section FormatSpec.legal FormatSpec.scene_ok
  PageSpec.paginate PageSpec.strip_crc PageSpec.all_pages_valid PageSpec.ls_init PageSpec.ls_run PageSpec.lr_run.
